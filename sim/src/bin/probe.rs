use mmsim::sut::*;
fn main() {
    mmsim::sut::maybe_act_as_cli_subprocess();
    mmsim::sut::init_cli_env();
    mmsim::util::install_counting_logger();
    let src = std::fs::read_to_string(std::env::args().nth(1).unwrap()).unwrap();
    let src2 = std::env::args().nth(2).map(|p| std::fs::read_to_string(p).unwrap()).unwrap_or(src.clone());
    let n: u64 = std::env::args().nth(3).map(|s| s.parse().unwrap()).unwrap_or(8);
    let opts = SutOptions { with_scheduler: true, sample_rate: 48000, self_init_0: false, with_sampler: std::env::var("WITH_SAMPLER").is_ok() };
    for b in [Backend::Vm, Backend::VmCli, Backend::WasmP2, Backend::WasmCli] {
        let mut s = match Sut::start(b, &src, None, &opts, RetireMode::Present) { Ok(s) => s, Err(e) => { println!("{:?} start failed: {e}", b); continue; } };
        let mut out = vec![];
        let nin = s.io.input as usize;
        print!("{:8} io={:?}: ", b.name(), s.io);
        for t in 0..2 * n {
            if t == n && std::env::var("NOSWAP").is_err() {
                match s.compile(&src2) { Compiled::Payload(p) => s.deliver(p), Compiled::Failed(e) => println!("compile failed {e}") }
                print!(" | swap={:?} | ", s.callback_begin());
            }
            let inp: Vec<f64> = (0..nin).map(|c| (t * 10 + c as u64) as f64).collect();
            let rc = s.frame(t, &inp, &mut out);
            print!("{:?}{:?} ", rc.map(|_| ()).err(), out);
        }
        println!();
    }
    println!("log counts {:?} {}", mmsim::util::log_counts(), mmsim::util::last_log_error());
}
