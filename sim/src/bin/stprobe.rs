use state_tree::tree::StateTreeSkeleton as S;
fn main() {
    let c = || S::FnCall(vec![Box::new(S::FnCall(vec![Box::new(S::Feed(1u64))])), Box::new(S::Mem(1u64))]);
    let m = || S::FnCall(vec![Box::new(S::Mem(1u64))]);
    let old = S::FnCall(vec![Box::new(m()), Box::new(m()), Box::new(c())]);
    let new = S::FnCall(vec![Box::new(c()), Box::new(m()), Box::new(m())]);
    println!("{:?}", state_tree::build_state_storage_patch_plan(old, new));
}
